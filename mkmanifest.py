#!/usr/bin/env python3
"""Writes MANIFEST.json from the table below (kept in one place so it stays valid)."""
import json, os
HERE = os.path.dirname(os.path.abspath(__file__))
CLAIMED = {
 'C01': dict(
   text='Proof (Coq): for every sentence of the documented grammar the generated-table shift-reduce parser builds a tree whose Boolean value is the documented one (parentheses > not > and > or), no reducer ever crashes on any token sequence, constants and list-of-lists rules mean what is documented; the model is tied to the code by regenerating the reducer table/keywords/whitespace from source on every run and by differential execution (all token sequences <= 6, enumerated and random sentences in random renderings against Enforcer.enforce).',
   note='Theorems are about the Coq model (coq/Model/SR.v, Tokenize.v, Eval.v); tie = translator gen/ + correspondence harness; string-level rendering theorem covers the tokenizer; str.lower final-sigma context is outside the model.',
   technique='Coq proof (induction over the grammar, stack invariant) + generated reducer table + differential correspondence',
   design='6 C01'),
 'C02': dict(
   text='Proof (Coq): parser soundness (whatever the generated-table parser reduces to a single value is the tree of a sentence), hence every non-empty non-sentence is the always-deny check, loading is total on rule-shaped values and yields a check (never a raw token: F1 repair re-proved against the generated rejection list), any other value shape is the always-deny check (F2 repair flag read from source); differential: all token sequences <= 5, one-token rules, corruptions, random Unicode strings and every JSON/YAML value shape through from_dict/JSON/YAML load against Enforcer.enforce for a spread of credentials.',
   note='Model of parse_rule/_parse_list_rule shape validation tied by translator (textual shape check) and correspondence; YAML/JSON decoding by the libraries is an oracle.',
   technique='Coq proof (stack-covering invariant for soundness) + generated tables + differential correspondence',
   design='6 C02'),
 'C03': dict(
   text='Proof (Coq): Rules.__missing__ is translated from source into a decision tree on every run and the store lookup is proved equal to the documented table for every rule set, default-rule configuration and name; enforce on an unresolvable name or an empty rule set returns False; a resolvable name is decided by exactly the resolved check under the enforced name. Differential: complete table over a 3-4 name universe x 9 default configurations x queried names x role subsets, model vs Enforcer.enforce vs an independent reading of the statement.',
   note='Decision-tree translator (gen/dtree.py) and its atom map are trusted; the atoms are interpreted by Model.Eval.missing_env.',
   technique='Coq proof by evaluation of the generated decision tree + differential correspondence',
   design='6 C03'),
 'C04': dict(
   text='Proof (Coq): role_check m tgt creds = Ok true iff X (m filled from the target; substitution on well-formed %(key)s templates proved equal to hole filling) equals a role ignoring case (str.lower per code point from the table regenerated from the running interpreter); missing target key or missing roles entry denies. Differential: generated templates/targets/credentials over a mixed ASCII/Latin/Greek/Cyrillic alphabet plus every single-character name of the lower-casing table, extracted spec_role vs Enforcer.enforce, model vs implementation. Partial: context-sensitive lower-casing (final sigma) is outside the model.',
   note='str % mapping is modelled for %(key)s and %% only (anything else is flagged out-of-model); str.lower table regenerated from the interpreter each run.',
   technique='Coq proof (iff characterisation, template round-trip) + generated handler/Unicode tables + differential correspondence',
   design='6 C04'),
 'C05': dict(
   text='Proof (Coq): the credential walk returns true iff some value reached by following the dotted path (lists fan out one level per step) prints as the right side; literal left sides compare with the literal string form; a missing key or a path running into a non-container denies and never raises (F4 repair re-proved against the generated except clause); the harness oracle (collect-all reading) is proved equivalent to the relational spec. Differential: generated checks with literal/path left sides against nested random credentials plus a small-scope enumeration.',
   note='ast.literal_eval is an oracle (its outcome per left side is computed by the harness and handed to the model); str() of containers modelled for plain strings only.',
   technique='Coq proof (induction on the path against an inductive reach relation) + generated handler sets + differential correspondence',
   design='6 C05'),
 'C06': dict(
   text='Proof (Coq): a rule:NAME leaf evaluates exactly as the definition lookup resolves it to (default-rule fallback included) under the same current rule; inlining references never changes an outcome at any depth; undefined references deny like unknown policies; rank-acyclic stores never run out of fuel and more fuel never changes an answer; every recording leaf reached receives the enforced policy name (instrumented evaluator proved to agree with the plain one). Differential: acyclic rule sets with alias chains/diamonds/undefined references and recording 3-/4-argument custom checks: decisions and the sequence of recorded calls, inlining metamorphic relation.',
   note='The alias theorems carry the hypothesis that the referenced definition raises nothing RuleCheck.__call__ would swallow (its except KeyError wraps the nested evaluation); inspect.getfullargspec arity adaptation is modelled by a per-class flag.',
   technique='Coq proof (fuel monotonicity/adequacy, structural induction for inlining, trace invariant) + differential correspondence',
   design='6 C06'),
 'C13': dict(
   text='Proof (Coq): the undefined-reference walk is exact w.r.t. "some reference anywhere (also under not) is undefined"; the path-sensitive cycle walk with per-branch copies of seen and |rules|+2 fuel is exact w.r.t. "a reference reaches a reference cycle" in the rule graph (diamonds are not cycles); a store on which check_rules reports nothing evaluates every stored rule without running out of fuel. Which child attributes the walkers descend into is read off the source each run (F5 repair). Differential: rule sets over 3-4 names from 12 body shapes and random graphs over <= 6 names vs model vs an independent graph analysis; clean sets evaluated under a recursion limit.',
   note='The oslopolicy-validator return code (missing file, unknown names, unparseable rule) is checked differentially only.',
   technique='Coq proof (inductive hit relation mirroring the DFS, room measure for fuel, graph-theoretic reading) + generated walker facts + differential correspondence',
   design='6 C13'),
 'C07': dict(
   text='Proof (Coq): the decision part of Enforcer.enforce (from the isinstance(rule, BaseCheck) dispatch to the end) and authorize are translated from source into decision trees on every run; a bridge theorem proves the hand model equal to the tree (exhaustive atom case analysis), and on the model: do_raise off returns falsy exactly when do_raise on raises; the raised exception is the caller class / PolicyNotAuthorized, or InvalidScope on scope mismatch; allowed never raises; do_raise never returns falsy; evaluation errors are the same in both modes; authorize = enforce for registered names and PolicyNotRegistered otherwise; non-mapping credentials raise InvalidContextObject. Differential: generated rule sets x do_raise x exc class with args/kwargs x debug logging x name/object x authorize. Partial: that the debug dump (mask_dict_password, jsonutils.dumps) neither fails nor mutates is library behaviour, checked by snapshot only.',
   note='The translator checks the prefix of enforce (load_rules, type gate, system_scope mirror, debug block assigning only its own locals) textually.',
   technique='Coq proof over a decision tree generated from source (bridge + case analysis) + differential correspondence',
   design='6 C07'),
 'C08': dict(
   text='Proof (Coq): _enforce_scope is translated from source into a decision tree each run and proved equal to the documented table for EVERY list of scope-type strings (token scope = system > domain > project; mismatch with enforcement on => False or InvalidScope); placed in enforce: a mismatch denies whatever the check is, and a match / enforcement off / no scope types leaves exactly the decision of the check; system_scope is mirrored into system. Differential: the complete finite table of the quantifier (16384 rows) against the statement read directly and against the model. Partial: interchangeability of RequestContext / to_policy_values / dict is oslo.context behaviour, checked differentially only.',
   note='scope types come from the registered default in the model exactly as in enforce (registered_rules.get(rule)).',
   technique='Coq proof over a decision tree generated from source + exhaustive finite table',
   design='6 C08'),
 'C14': dict(
   text='Proof (Coq): for every tree over constants, references, role and generic checks whose match templates are well-formed %(key)s templates over a mapping target, roles a list of strings (or absent) and literal_eval raising only ValueError/SyntaxError/TypeError, evaluation yields a decision (or OutOfFuel, excluded by acyclicity), and whatever escapes enforce is PolicyNotAuthorized / the caller class / InvalidScope / InvalidContextObject / PolicyNotRegistered; the path walk and the generic check never raise (F3/F4 repairs re-proved against the generated except clauses); a lone operator/parenthesis/quoted string is never returned as a rule (F1, see C02). Differential: hostile left sides x credentials with every JSON type at every path position.',
   note='Assumes ast.literal_eval raises only ValueError, TypeError, SyntaxError (MemoryError/RecursionError = resource exhaustion, excluded); http: and custom checks are outside the quantifier.',
   technique='Coq proof (induction on fuel and tree with generated handler sets) + differential correspondence',
   design='6 C14'),
 'C09': dict(
   text='Proof (Coq): for every file-system layout (any number of directories, files, names) a freshly started enforcer in overwrite mode holds, for every name, exactly the last definition in the documented order (registered default < policy file < directories in configured order, files sorted by name, dot-files and sub-directories ignored, missing file/directories skipped), names defined nowhere stay undefined; pick_default_policy_file is translated from source into a decision tree each run and proved equal to the documented selection rule. Differential: all 256 layer subsets for one name (random for a second) with JSON/YAML mixes against real files, vs the model and the extracted spec_rule; the 224-row file-selection table against real oslo.config. Partial: JSON/YAML equivalence (yaml.safe_load/jsonutils.loads) and oslo.config find_file/get_location are oracles.',
   note='Python list.sort of file names is modelled by an insertion sort on code points; os.walk/listdir/getmtime are the file-system oracle with synthetic mtimes; a directory whose newest mtime is 0 (the epoch) is outside the theorem (counterexample proved in Coq).',
   technique='Coq proof (last-writer-wins fold lemmas, defaults loop invariant) + generated decision trees + differential on real files',
   design='6 C09'),
 'C10': dict(
   text='Proof (Coq): invariant by induction over histories of ANY length: if every change stamps the changed file later than the clock (entry creation/removal stamps the directory) and no configured directory is removed, then after every load the long-lived enforcer holds exactly the rules and file rules (list equality) that a fresh enforcer computes from the current files; covers the "not self.rules" clause, the deleted main file (F6 repair), a re-created main file, directories appearing later. Differential: all operation sequences of length <= 2 (3 in thorough) over 13 operations plus random histories up to 40 steps on real files with synthetic mtimes; long-lived vs new Enforcer after every step, and model vs implementation.',
   note='Hypotheses proved necessary by counterexample: directories persist, stamps strictly advance, overwrite mode. File-system timestamp behaviour is the stated oracle.',
   technique='Coq proof (history invariant with clock discipline) + differential on real files',
   design='6 C10'),
 'C11': dict(
   text='Proof (Coq): the guards of _handle_deprecated_rule are translated from source into a decision tree each run and proved equal to the documented override table for a name no file defines; within a load, a file definition under the new name always governs; the table depends on the state only through the file definition under the old name. Differential: the whole configuration product (renamed/same-name, same/different strings, enforce_new_defaults, new/old overrides incl. alias, main file or directory, shared predecessor) x check-string pairs: effective check vs extracted spec, decisions over role subsets vs the statement, model vs implementation.',
   note='file_rule.check != deprecated_rule.check compares separately parsed trees by identity and is modelled as the constant it is (the statement leaves that row unconstrained).',
   technique='Coq proof over a decision tree generated from source + exhaustive configuration product',
   design='6 C11'),
 'C12': dict(
   text='Proof (Coq): load_rules is idempotent as a function on the WHOLE enforcer state from any state (so k loads = one load and a merged OrCheck cannot grow); a forced reload after any history equals the fresh computation; frame facts regenerated from policy.py each run (the only writes through received references are four known sites, none on a RuleDefault/DeprecatedRule; both deep copies present) are proved equal to the expected list. Differential: interleavings of {load, forced load, enforce, edit} over 1-3 enforcers sharing the same RuleDefault objects: effective policy stable, deep snapshots (incl. object identities) of the shared objects unchanged, each enforcer equal to the pure model run on its own history. Partial: Python aliasing is not expressible in the functional model; frame facts + snapshots tie it.',
   note='The frame analysis is a syntactic taint from parameters and self.registered_rules; it cannot see mutation through other aliases.',
   technique='Coq proof (fixed point of the load function) + generated frame facts + differential interleavings',
   design='6 C12'),
 'C16': dict(
   text='Proof (Coq): accept(body) holds iff body = "*True"* ; an http(s) leaf yields Ok true only on a reply whose body is accepted; a timeout yields RuntimeError and a transport fault is raised; the request names the current rule the evaluation started with at any depth (trace invariant) and carries the complete target with only top-level opaque objects blanked. Differential with requests.post stubbed: all bodies of length <= 4 (5 thorough) over the alphabet around the accepted form plus hand-picked ones, 9 status codes, placements under not/nesting/alias, fault kinds, both encodings x nested/opaque targets, TLS pre-check table. Partial: real transport is stubbed; that the caller target is unmodified is copy.deepcopy behaviour, checked by identity snapshot.',
   note='requests, copy.deepcopy and jsonutils.dumps are oracles.',
   technique='Coq proof (string characterisation, trace invariant) + differential with a recording stub',
   design='6 C16'),
 'C15': dict(
   text='Proof (Coq): for every tree the text language can express (And/Or with >= 2 children, leaves whose printed form is a word that parses back to the same leaf) parse(print t) = t, so printing is injective and equal printed forms imply equal decisions; every rule the text parser returns is such a tree, hence parse . print is the identity on parsed rules (F14 repair); a dumped rule set (always-allow as the empty string) loads back to the same checks. Printer formats are regenerated from the __str__ methods each run. Differential: enumerated and random expressions over leaves of every built-in kind and list-of-lists rules: tree, text and decisions after a print/parse round, str(Rules)/Rules.load, RuleDefault.__eq__.',
   note='jsonutils.dumps/loads of the rule-set dump is an oracle; list-form leaves that the text language cannot express (embedded whitespace, quote-delimited, leading/trailing parentheses) are outside the quantifier.',
   technique='Coq proof (tree-to-sentence embedding, tokenizer rendering theorem, parser completeness/soundness) + generated printer formats + differential correspondence',
   design='6 C15'),
 'C17': dict(
   text='Proof (Coq): for every list of defaults (any description / reason / operation list / scope list / deprecation shape) every line of the generated YAML sample is blank or a comment and free of line breaks; the only lines starting with #" are the rule lines, one per default in order; with those uncommented a line-class reader sees exactly name -> check string (names and check strings free of double quotes); the JSON sample is the object of the same rule lines. textwrap.wrap is an oracle with the stated contract. Differential: hostile descriptions/reasons (all Python line-break characters, #, quotes, colons, leading whitespace, over-long words, text that looks like a rule line): generated text vs the model (wrap placeholders expanded by the real textwrap), PyYAML/JSON/Rules.load re-reading. Partial: PyYAML agreement with the line-class reader and the textwrap contract are validated differentially, not proved.',
   note='description.strip().splitlines() is computed by the harness and given to the model as lines; operation paths, scope types and deprecated_since with line breaks are outside the domain (wf_gdefault).',
   technique='Coq proof (line-structure invariants over the assembly) + differential against PyYAML/JSON',
   design='6 C17'),
 'C18': dict(
   text='Proof (Coq), on abstract policy files at the level of the effective check an enforcer computes (spec_rule), default configuration: oslopolicy-policy-upgrade (incl. a deprecated name split into several and an old name that merely aliases the new one), oslopolicy-convert-json-to-yaml (rules equal to the default by printed form commented out; uses print injectivity), oslopolicy-policy-generator (file rules plus registered rules absent from every file) and deletion of everything oslopolicy-list-redundant reports each leave the effective check of every surviving name unchanged; every hypothesis is an exclusion of the quantifier and is shown necessary by a proved counterexample. Differential: the tools through their console entry points (stevedore replaced) on generated default sets and operator files (string and list-of-lists values, deprecated/unknown names, aliases): decisions of an Enforcer on the original policy vs the tool output for every surviving name x role subsets, and tool output vs the model. Partial: YAML/JSON emission and re-reading are library behaviour.',
   note='The theorems speak about the mapping the tool produces, not about the text; text emission (jsonutils.dumps / yaml.safe_dump) is covered by the differential part only.',
   technique='Coq proof (fold invariants over dictionaries, print injectivity) + differential on the console entry points',
   design='6 C18'),
 'C19': dict(
   text='Proof (Coq): for credentials in which system mirrors system_scope (what the tool derives since the F9 repair) the verdict printed for a requested rule is the decision of Enforcer.enforce (passed iff allowed, failed iff denied, including an unresolvable name), the listing is one verdict per stored name containing a colon in sorted order, and each listed verdict is the library decision for that name. Differential: generated policy files x sample and generated tokens (project/domain/system/unscoped) x is_admin x nested target files x requested rules: tool stdout vs Enforcer.enforce and vs the model (credential/target derivation, flatten).',
   note='jsonutils.loads and the token layout are oracles; a token that itself carries a system_scope field is outside the theorem hypothesis.',
   technique='Coq proof (reduction to the enforce model) + differential on the console entry point',
   design='6 C19'),
 'C20': dict(
   text='The full statement is false of the code (known finding F10: load_rules rebuilds the shared rule store in place, no lock, no copy-then-swap; not a small repair). Proof (Coq): a write-level trace model of load_rules whose last snapshot is proved to be the atomic load; decisions taken before the first and after the last write are based on the complete new policy; the statement is refuted on the model by the main-edit-with-directory-override scenario (and its window computed); the list of shared-state write sites of the reload path is regenerated from policy.py each run and proved equal to the expected list, so a new write site breaks an obligation. Deterministic scheduler (sys.settrace): the reloader is preempted at every (quick: every third) source-line boundary in four scenarios, the other thread decides (with its own implicit load), decisions compared with the settled old/new policies; mixed decisions are known findings keyed by (scenario, last shared write site), anything outside that list is a violation. Partial: the model is at the granularity of attribute writes, CPython preempts between bytecodes.',
   note='Two-switch schedules are not enumerated; the scheduler pauses only the reloading thread.',
   technique='Coq proof about a write-level trace model + generated write-site list + deterministic line-level scheduler with known-findings',
   design='6 C20'),
}
REASON_PENDING = 'check not built yet in this session (model/theorems in progress); not claimed'
def main():
    props = [json.loads(l) for l in open(os.path.join(HERE, 'properties.jsonl'))]
    checks, na = [], []
    for p in props:
        pid = p['id']
        if pid in CLAIMED:
            c = CLAIMED[pid]
            checks.append({
              'property_id': pid,
              'quick_cmd': './check %s --tier quick' % pid,
              'thorough_cmd': './check %s --tier thorough' % pid,
              'evidence_file': '/verif/evidence/%s.json' % pid,
              'replay_cmd_template': './check %s --replay {path}' % pid,
              'engine': 'coq-model',
              'level_claimed': {'category': 'proof', 'text': c['text'], 'design_ref': 'DESIGN.md section ' + c['design']},
              'level_note': c['note'],
              'technique': c['technique'],
            })
        else:
            na.append({'property_id': pid, 'reason': NA.get(pid, REASON_PENDING)})
    m = {
      'version': 1,
      'setup_cmd': 'cd /verif && ./build.sh',
      'hooks': {'guard': 'OSLO_POLICY_VERIF', 'enable': 'no hooks: nothing in /repo is instrumented; checks import /repo working tree directly',
                'baseline_off_cmd': 'cd /repo && /venv/bin/python -m pytest -ra -q -p no:cacheprovider --timeout=900 --continue-on-collection-errors',
                'source_commits': [], 'add_only': True},
      'engines': [{'name': 'coq-model', 'path': '/verif/coq', 'serves_properties': sorted(CLAIMED),
                   'kind_free_text': 'Coq 8.16 development (model, spec, proofs), regenerated Gen/ tables, extraction to OCaml driver, Python differential harness'}],
      'checks': checks,
      'not_applicable': na,
      'notes': 'See DESIGN.md. Fix commits in /repo are listed in known_findings.json (fixed entries).',
    }
    json.dump(m, open(os.path.join(HERE, 'MANIFEST.json'), 'w'), indent=1)
NA = {}
if __name__ == '__main__':
    main()
